------------------------------ MODULE DTCWT2 ------------------------------
(***************************************************************************)
(* The 2-D dual-tree complex wavelet transform of pytorch_wavelets           *)
(* (dtcwt/transform2d.py, dtcwt/transform_funcs.py) above the 1-D building   *)
(* blocks of module DTCWT1.  Two layers again:                               *)
(*   Ref   the reference NumPy Transform2d.forward / inverse (package dtcwt) *)
(*   Impl  DTCWTForward / DTCWTInverse, FWD_J1, FWD_J2PLUS, INV_J1,          *)
(*         INV_J2PLUS, highs_to_orientations, q2c / c2q, get_dimensions5/6.  *)
(* Modelled here: which 1-D operator with which filters acts along which     *)
(* axis for each band, the quad -> complex combination and orientation       *)
(* order, the pyramid bookkeeping over (rows, cols) - odd-size replication,  *)
(* extension to a multiple of 4 before every level >= 2, the inverse's       *)
(* [1:-1] crops, absent (None / empty / placeholder) inputs -, the axis      *)
(* layout tables of the o_dim / ri_dim options, skip / include masks and     *)
(* which arguments receive gradients.                                         *)
(***************************************************************************)
EXTENDS Integers, Sequences, FiniteSets, TLC, Json, SequencesExt

CONSTANTS HWCodes, JMax, Apis, Shard, NShards, Emit,
          OptFix,      \* TRUE: tree after the "fix:" of get_dimensions5/6 (finding F7)
          AbsentFix    \* TRUE: tree after the "fix:" of absent-lowpass / empty-tensor handling (finding F6)

VARIABLES call, pc, lvl, rows, cols, trail, outcome
vars == <<call, pc, lvl, rows, cols, trail, outcome>>

HWSet == {<<c \div 100, c % 100>> : c \in HWCodes}

(* ========================= band wiring of one level ======================= *)
\* a real band is (vertical filter, horizontal filter) with "lo"/"hi"
\* Reference: Lo = colfilter(X,h0).T ; Hi = colfilter(X,h1).T ; LoLo = colfilter(Lo,h0).T
\*            Yh[0:6:5] = q2c(colfilter(Hi,h0).T) ; Yh[2:4] = q2c(colfilter(Lo,h1).T) ; Yh[1:5:3] = q2c(colfilter(Hi,h1).T)
RefBand == [LL |-> [v |-> "lo", h |-> "lo"],
            P05 |-> [v |-> "hi", h |-> "lo"],      \* orientations 0 and 5  (15, 165 degrees)
            P23 |-> [v |-> "lo", h |-> "hi"],      \* orientations 2 and 3  (75, 105)
            P14 |-> [v |-> "hi", h |-> "hi"]]      \* orientations 1 and 4  (45, 135)
\* torch fwd_j1 / fwd_j2plus: lo = rowfilter(x,h0) ; hi = rowfilter(x,h1) ; ll = colfilter(lo,h0) ;
\*   lh = colfilter(lo,h1) ; hl = colfilter(hi,h0) ; hh = colfilter(hi,h1)
\* highs_to_orientations: (15,165) = q2c(lh) ; (45,135) = q2c(hh) ; (75,105) = q2c(hl)
ImplRealBand == [ll |-> [v |-> "lo", h |-> "lo"], lh |-> [v |-> "hi", h |-> "lo"],
                 hl |-> [v |-> "lo", h |-> "hi"], hh |-> [v |-> "hi", h |-> "hi"]]
ImplPairOf == [P05 |-> "lh", P14 |-> "hh", P23 |-> "hl"]
ImplBand == [LL |-> ImplRealBand.ll, P05 |-> ImplRealBand[ImplPairOf.P05],
             P23 |-> ImplRealBand[ImplPairOf.P23], P14 |-> ImplRealBand[ImplPairOf.P14]]
BandWiringOK == ImplBand = RefBand

\* quads a = y[0::2,0::2], b = y[0::2,1::2], c = y[1::2,0::2], d = y[1::2,1::2];
\* a complex number as <<re, im>>, each a function quad -> coefficient (times 1/sqrt 2)
Quads == {"a", "b", "c", "d"}
Form(a, b, c, d) == [q \in Quads |-> CASE q = "a" -> a [] q = "b" -> b [] q = "c" -> c [] q = "d" -> d]
\* reference q2c: p = (a + jb), q = (d - jc); z = dstack(p - q, p + q)
RefQ2C == << [re |-> Form(1, 0, 0, -1), im |-> Form(0, 1, 1, 0)],        \* z1 = p - q
             [re |-> Form(1, 0, 0, 1),  im |-> Form(0, 1, -1, 0)] >>      \* z2 = p + q
\* torch q2c: ((a-d, b+c), (a+d, b-c))
ImplQ2C == << [re |-> Form(1, 0, 0, -1), im |-> Form(0, 1, 1, 0)],
              [re |-> Form(1, 0, 0, 1),  im |-> Form(0, 1, -1, 0)] >>
\* orientation index -> (pair, which of z1/z2)
RefOrient == [o \in 0 .. 5 |->
                CASE o = 0 -> <<"P05", 1>> [] o = 5 -> <<"P05", 2>>
                  [] o = 2 -> <<"P23", 1>> [] o = 3 -> <<"P23", 2>>
                  [] o = 1 -> <<"P14", 1>> [] o = 4 -> <<"P14", 2>>]
\* torch: stack([deg15, deg45, deg75, deg105, deg135, deg165]) with (15,165)=q2c(lh), (45,135)=q2c(hh), (75,105)=q2c(hl)
ImplOrient == [o \in 0 .. 5 |->
                CASE o = 0 -> <<"P05", 1>> [] o = 1 -> <<"P14", 1>> [] o = 2 -> <<"P23", 1>>
                  [] o = 3 -> <<"P23", 2>> [] o = 4 -> <<"P14", 2>> [] o = 5 -> <<"P05", 2>>]
OrientOK == ImplOrient = RefOrient /\ ImplQ2C = RefQ2C

\* c2q (inverse):  reference  a = Re(w0 + w1), b = Im(w0 + w1), c = Im(w0 - w1), d = -Re(w0 - w1)   (times 1/sqrt 2)
\* as functions of <<w0re, w0im, w1re, w1im>>
RefC2Q  == [a |-> <<1, 0, 1, 0>>, b |-> <<0, 1, 0, 1>>, c |-> <<0, 1, 0, -1>>, d |-> <<-1, 0, 1, 0>>]
\* torch: x1 = w1r + w2r ; x2 = w1i + w2i ; x3 = w1i - w2i ; x4 = -w1r + w2r
ImplC2Q == [a |-> <<1, 0, 1, 0>>, b |-> <<0, 1, 0, 1>>, c |-> <<0, 1, 0, -1>>, d |-> <<-1, 0, 1, 0>>]
\* c2q o q2c = 2 * identity on quads (each direction carries 1/sqrt 2): used by C04
C2QInvertsQ2C ==
    \A q \in Quads, p \in Quads :
        (ImplC2Q[q][1] * ImplQ2C[1].re[p] + ImplC2Q[q][2] * ImplQ2C[1].im[p]
         + ImplC2Q[q][3] * ImplQ2C[2].re[p] + ImplC2Q[q][4] * ImplQ2C[2].im[p]) = (IF p = q THEN 2 ELSE 0)
C2QOK == ImplC2Q = RefC2Q
\* c2q is the transpose of q2c (C06: the backward of the quad -> complex step)
C2QIsQ2CTranspose ==
    \A q \in Quads : ImplC2Q[q] = <<ImplQ2C[1].re[q], ImplQ2C[1].im[q], ImplQ2C[2].re[q], ImplQ2C[2].im[q]>>

(* ======================= axis layout options (C12) ======================== *)
\* declarative meaning: a subband is the 6-D tensor with O at position o_dim mod 6, RI at ri_dim mod 6
\* and N, C, H, W in this order in the remaining positions
Others(o, ri) == SetToSortSeq((0 .. 5) \ {o, ri}, <)
RefLayout(od, rd) ==
    LET o == od % 6  ri == rd % 6  rest == Others(o, ri)
    IN  [o |-> o, ri |-> ri, n |-> rest[1], c |-> rest[2], h |-> rest[3], w |-> rest[4]]
\* after the real/imaginary axis has been removed (5-D tensor)
Drop(p, ri) == IF p > ri THEN p - 1 ELSE p
RefLayout5(od, rd) ==
    LET L == RefLayout(od, rd)
    IN  [o |-> Drop(L.o, L.ri), h |-> Drop(L.h, L.ri), w |-> Drop(L.w, L.ri)]

\* get_dimensions5 as coded
ImplDims5(od, rd) ==
    LET o0 == od % 6  ri == rd % 6
        o  == IF ri < o0 THEN o0 - 1 ELSE o0
        hw == IF OptFix
              THEN <<RefLayout5(od, rd).h, RefLayout5(od, rd).w>>
              ELSE IF o = 4 THEN <<2, 3>> ELSE IF o = 3 THEN <<2, 4>> ELSE <<3, 4>>
    IN  [o |-> o, ri |-> ri, h |-> hw[1], w |-> hw[2]]
\* get_dimensions6 as coded (note: it tests the DECREMENTED o_dim)
ImplDims6(od, rd) ==
    LET o0 == od % 6  ri == rd % 6
        o  == IF ri < o0 THEN o0 - 1 ELSE o0
        h  == IF o >= 3 /\ ri >= 3 THEN 2 ELSE IF o >= 4 \/ ri >= 4 THEN 3 ELSE 4
        w  == IF o >= 4 /\ ri >= 4 THEN 3 ELSE IF o >= 4 \/ ri >= 4 THEN 4 ELSE 5
    IN  IF OptFix THEN [o |-> o, ri |-> ri, h |-> RefLayout(od, rd).h, w |-> RefLayout(od, rd).w]
        ELSE [o |-> o, ri |-> ri, h |-> h, w |-> w]

OptPairs == {<<od, rd>> \in (-6 .. 5) \X (-6 .. 5) : od % 6 # rd % 6}
\* forward: stack(..., dim=o5) on the 4-D bands, then stack((re, im), dim=ri): the layout produced
ImplForwardLayout(od, rd) ==
    LET d == ImplDims5(od, rd)
        \* positions of N, C, H, W in the 5-D tensor after inserting O at d.o
        pos5(p) == IF p >= d.o THEN p + 1 ELSE p
        \* then RI inserted at d.ri
        pos6(p) == IF p >= d.ri THEN p + 1 ELSE p
    IN  [o |-> pos6(d.o), ri |-> d.ri, n |-> pos6(pos5(0)), c |-> pos6(pos5(1)), h |-> pos6(pos5(2)), w |-> pos6(pos5(3))]
ForwardLayoutOK == \A p \in OptPairs : ImplForwardLayout(p[1], p[2]) = RefLayout(p[1], p[2])
\* inverse: the (h, w) positions the code reads sizes from must be where H and W really are
Dims5OK == \A p \in OptPairs : LET d == ImplDims5(p[1], p[2]) r == RefLayout5(p[1], p[2])
                               IN  d.o = r.o /\ d.h = r.h /\ d.w = r.w
Dims6OK == \A p \in OptPairs : LET d == ImplDims6(p[1], p[2]) r == RefLayout(p[1], p[2])
                               IN  d.h = r.h /\ d.w = r.w
BadPairs5 == {p \in OptPairs : LET d == ImplDims5(p[1], p[2]) r == RefLayout5(p[1], p[2]) IN ~(d.h = r.h /\ d.w = r.w)}
BadPairs6 == {p \in OptPairs : LET d == ImplDims6(p[1], p[2]) r == RefLayout(p[1], p[2]) IN ~(d.h = r.h /\ d.w = r.w)}

(* ============================ pyramid machine ============================ *)
NoCall == [api |-> "none"]
Even(n) == n + (n % 2)
Ext4(n) == IF n % 4 # 0 THEN n + 2 ELSE n
InShard(hw) == (hw[1] + 3 * hw[2]) % NShards = Shard

Init == /\ call = NoCall /\ pc = "idle" /\ lvl = 0 /\ rows = 0 /\ cols = 0 /\ trail = << >> /\ outcome = "running"

(* ---- DTCWTForward.forward ---- *)
StartFwd ==
    /\ pc = "idle" /\ "fwd" \in Apis
    /\ \E hw \in HWSet, J \in 1 .. JMax :
          /\ InShard(hw)
          /\ call' = [api |-> "fwd", H |-> hw[1], W |-> hw[2], J |-> J]
          /\ rows' = hw[1] /\ cols' = hw[2]
    /\ pc' = "fwd" /\ lvl' = 0 /\ trail' = << >> /\ UNCHANGED outcome
\* the same call with the two selection options given as per-level masks (skip_hps, include_scale as lists):
\* the level loop below is shared - the options must not influence it
StartFwdMasks ==
    /\ pc = "idle" /\ "fwdm" \in Apis
    /\ \E hw \in HWSet, J \in 1 .. JMax :
          /\ InShard(hw)
          /\ \E skip \in SUBSET (1 .. J), incl \in SUBSET (1 .. J) :
                call' = [api |-> "fwdm", H |-> hw[1], W |-> hw[2], J |-> J, skip |-> skip, incl |-> incl]
          /\ rows' = hw[1] /\ cols' = hw[2]
    /\ pc' = "fwd" /\ lvl' = 0 /\ trail' = << >> /\ UNCHANGED outcome
\* level 1: replicate the last row / column for odd sizes; FWD_J1 keeps the size, highpasses are half size
FwdLevel1 ==
    /\ pc = "fwd" /\ lvl = 0
    /\ LET r == Even(rows)  c == Even(cols)
       IN  /\ rows' = r /\ cols' = c
           /\ trail' = Append(trail, [level |-> 1, in_r |-> rows, in_c |-> cols, ext_r |-> rows % 2 = 1, ext_c |-> cols % 2 = 1,
                                      lo_r |-> r, lo_c |-> c, hi_r |-> r \div 2, hi_c |-> c \div 2])
    /\ lvl' = 1 /\ UNCHANGED <<call, pc, outcome>>
\* level j >= 2: extend to a multiple of 4 (one replicated row/column at each end), FWD_J2PLUS halves
FwdLevelJ ==
    /\ pc = "fwd" /\ lvl >= 1 /\ lvl < call.J
    /\ LET r == Ext4(rows)  c == Ext4(cols)
       IN  /\ rows' = r \div 2 /\ cols' = c \div 2
           /\ trail' = Append(trail, [level |-> lvl + 1, in_r |-> rows, in_c |-> cols, ext_r |-> rows % 4 # 0, ext_c |-> cols % 4 # 0,
                                      lo_r |-> r \div 2, lo_c |-> c \div 2, hi_r |-> r \div 4, hi_c |-> c \div 4])
    /\ lvl' = lvl + 1 /\ UNCHANGED <<call, pc, outcome>>
FwdReturn ==
    /\ pc = "fwd" /\ lvl = call.J /\ pc' = "done" /\ outcome' = "ok"
    /\ UNCHANGED <<call, lvl, rows, cols, trail>>

\* reference pyramid sizes (Transform2d.forward), computed independently as a closed recursion
RECURSIVE RefTrail(_, _, _, _)
RefTrail(r, c, level, J) ==
    IF level > J THEN << >>
    ELSE IF level = 1
         THEN <<[level |-> 1, in_r |-> r, in_c |-> c, ext_r |-> r % 2 = 1, ext_c |-> c % 2 = 1,
                 lo_r |-> Even(r), lo_c |-> Even(c), hi_r |-> Even(r) \div 2, hi_c |-> Even(c) \div 2]>>
              \o RefTrail(Even(r), Even(c), 2, J)
         ELSE <<[level |-> level, in_r |-> r, in_c |-> c, ext_r |-> r % 4 # 0, ext_c |-> c % 4 # 0,
                 lo_r |-> Ext4(r) \div 2, lo_c |-> Ext4(c) \div 2, hi_r |-> Ext4(r) \div 4, hi_c |-> Ext4(c) \div 4]>>
              \o RefTrail(Ext4(r) \div 2, Ext4(c) \div 2, level + 1, J)
FwdPyramidOK == (pc = "done" /\ call.api \in {"fwd", "fwdm"}) => trail = RefTrail(call.H, call.W, 1, call.J)
\* coldfilt needs multiples of 4: the extension rule guarantees it at every level >= 2
FwdAlignOK == (pc = "fwd" /\ lvl >= 1 /\ lvl < call.J) => (Ext4(rows) % 4 = 0 /\ Ext4(cols) % 4 = 0 /\ rows % 2 = 0 /\ cols % 2 = 0)

\* what the call hands back, as the code assembles it: `highs[j] = h` where FWD_J* returns the 0-dim placeholder for a
\* skipped level; `if include_scale[j]: scales[j] = low`; `return scales if True in include_scale else low`
ImplOuts(c) == [j \in 1 .. c.J |-> [hp    |-> IF j \in c.skip THEN "placeholder" ELSE "subbands",
                                   scale |-> IF j \in c.incl THEN "lowpass" ELSE "placeholder"]]
ImplYlKind(c) == IF c.incl # {} THEN "list" ELSE "tensor"
\* C12: the options only select.  Declaratively: level j carries its six subbands unless skipped, the lowpass of the
\* j-level transform iff requested, and the pyramid geometry is that of the plain call whatever the masks
MaskSelectOK ==
    (pc = "done" /\ call.api = "fwdm") =>
        /\ trail = RefTrail(call.H, call.W, 1, call.J)
        /\ \A j \in 1 .. call.J :
              /\ (ImplOuts(call)[j].hp = "subbands") <=> (j \notin call.skip)
              /\ (ImplOuts(call)[j].scale = "lowpass") <=> (j \in call.incl)
\* named consequence users meet: with any intermediate lowpass requested the FINAL lowpass is only returned if it was
\* requested too (yl becomes the list of scales; the last entry is a placeholder unless J \in incl)
FinalLowpassReturned(c) == c.incl = {} \/ c.J \in c.incl

(* ---- DTCWTInverse.forward on a forward-compatible pyramid; `absent` = levels passed as
        None / empty tensor / 0-dim placeholder, absLow = the lowpass is absent ---- *)
StartInv ==
    /\ pc = "idle" /\ "inv" \in Apis
    /\ \E hw \in HWSet, J \in 1 .. JMax :
          /\ InShard(hw)
          /\ \E absent \in SUBSET (1 .. J), absLow \in BOOLEAN, kind \in {"none", "empty", "placeholder"} :
                /\ (absent = {} /\ ~absLow) => kind = "none"
                /\ call' = [api |-> "inv", H |-> hw[1], W |-> hw[2], J |-> J, absent |-> absent, absLow |-> absLow, kind |-> kind]
                /\ trail' = RefTrail(hw[1], hw[2], 1, J)
    /\ LET t == trail' IN rows' = t[Len(t)].lo_r /\ cols' = t[Len(t)].lo_c
    /\ pc' = "inv" /\ lvl' = 0 /\ UNCHANGED outcome

\* which placeholder kinds the code recognises as "absent"
Recognised(kind) == IF AbsentFix THEN TRUE ELSE kind \in {"none", "placeholder"}
\* one pass of the loop: level j = J - lvl  (j >= 2: INV_J2PLUS, j = 1: INV_J1)
InvLevel ==
    /\ pc = "inv" /\ lvl < call.J
    /\ LET j    == call.J - lvl
           t    == trail[j]
           abs  == j \in call.absent
           lowAbs == call.absLow /\ lvl = 0
       IN  IF (abs /\ ~Recognised(call.kind)) \/ (lowAbs /\ ~AbsentFix) \/ (lowAbs /\ abs)
           THEN \* s.shape[self.o_dim] of an empty tensor / attribute of None: the call raises
                /\ pc' = "done" /\ outcome' = "raise" /\ UNCHANGED <<lvl, rows, cols>>
           ELSE LET \* crop the incoming lowpass when it is not twice the highpass of this level
                    ra == IF ~abs /\ ~lowAbs /\ rows # 2 * t.hi_r THEN rows - 2 ELSE rows
                    ca == IF ~abs /\ ~lowAbs /\ cols # 2 * t.hi_c THEN cols - 2 ELSE cols
                    \* level 1: inv_j1 repeats the same test on what the module hands it (a second crop)
                    r0 == IF j = 1 /\ ~abs /\ ~lowAbs /\ ra # 2 * t.hi_r THEN ra - 2 ELSE ra
                    c0 == IF j = 1 /\ ~abs /\ ~lowAbs /\ ca # 2 * t.hi_c THEN ca - 2 ELSE ca
                    \* an absent lowpass takes the size of the (double sampled) highpass
                    r1 == IF lowAbs THEN 2 * t.hi_r ELSE r0
                    c1 == IF lowAbs THEN 2 * t.hi_c ELSE c0
                IN  IF ~abs /\ (r1 # 2 * t.hi_r \/ c1 # 2 * t.hi_c)
                    THEN /\ pc' = "done" /\ outcome' = "raise" /\ UNCHANGED <<lvl, rows, cols>>
                    ELSE /\ rows' = (IF j >= 2 THEN 2 * r1 ELSE r1)
                         /\ cols' = (IF j >= 2 THEN 2 * c1 ELSE c1)
                         /\ lvl' = lvl + 1 /\ UNCHANGED <<pc, outcome>>
    /\ UNCHANGED <<call, trail>>
InvReturn ==
    /\ pc = "inv" /\ lvl = call.J /\ pc' = "done" /\ outcome' = "ok"
    /\ UNCHANGED <<call, lvl, rows, cols, trail>>

\* C04 / C11: a full forward-compatible pyramid reconstructs the image extended to even size
InvFullOK == (pc = "done" /\ call.api = "inv" /\ call.absent = {} /\ ~call.absLow) =>
                (outcome = "ok" /\ rows = Even(call.H) /\ cols = Even(call.W))
\* Known deviation (finding F6c, inherent): an absent level j < J whose lowpass the forward transform had
\* extended to a multiple of 4 - the [1:-1] crop needs that level's shape, which is not there
ExtLost(c) == \E j \in c.absent : j < c.J /\ (trail[j + 1].ext_r \/ trail[j + 1].ext_c)
\* a pyramid whose lowpass and coarsest level are both absent has no shape at all: outside the property
Shapeless(c) == c.absLow /\ c.J \in c.absent
\* C11: absent inputs behave like zeros of the right shape: never raise, same output size
InvAbsentOK == (pc = "done" /\ call.api = "inv" /\ ~Shapeless(call) /\ ~ExtLost(call)) =>
                  (outcome = "ok" /\ rows = Even(call.H) /\ cols = Even(call.W))
\* ... and the deviation region is not empty talk: inside it the model of the code really goes wrong
InvExtLostExact == (pc = "done" /\ call.api = "inv" /\ ~Shapeless(call) /\ ExtLost(call)) =>
                      ~(outcome = "ok" /\ rows = Even(call.H) /\ cols = Even(call.W))

(* ---- which arguments receive gradients (C06) ---- *)
\* INV_J*.backward: three-way case split on needs_input_grad[0], [1]
InvBwdGives(nl, nh) == [low |-> nl, high |-> nh]
GradPresent == \A nl \in BOOLEAN, nh \in BOOLEAN : InvBwdGives(nl, nh).low = nl /\ InvBwdGives(nl, nh).high = nh

Next == StartFwd \/ StartFwdMasks \/ FwdLevel1 \/ FwdLevelJ \/ FwdReturn \/ StartInv \/ InvLevel \/ InvReturn
Spec == Init /\ [][Next]_vars

(* ------------------------------ replay records --------------------------- *)
SetSeq(S) == SetToSortSeq(S, <)
Record ==
    CASE call.api = "fwd" ->
           [kind |-> "dt2.fwd", H |-> call.H, W |-> call.W, J |-> call.J, trail |-> trail]
      [] call.api = "fwdm" ->
           [kind |-> "dt2.fwdm", H |-> call.H, W |-> call.W, J |-> call.J, skip |-> SetSeq(call.skip), incl |-> SetSeq(call.incl),
            trail |-> trail, outs |-> ImplOuts(call), yl |-> ImplYlKind(call), final_low |-> FinalLowpassReturned(call)]
      [] call.api = "inv" ->
           [kind |-> "dt2.inv", H |-> call.H, W |-> call.W, J |-> call.J, absent |-> SetSeq(call.absent),
            absLow |-> call.absLow, akind |-> call.kind, outcome |-> outcome, out_r |-> rows, out_c |-> cols, trail |-> trail]
EmitOK == (pc = "done" /\ Emit) => PrintT(<<"@@REC", ToJson(Record)>>)
\* the layout table of the options, once (initial state of shard 0)
OptsRecord == [kind |-> "dt2.opts",
               pairs |-> SetToSeq({[o_dim |-> p[1], ri_dim |-> p[2], layout |-> RefLayout(p[1], p[2]),
                                    impl_fwd |-> ImplForwardLayout(p[1], p[2]),
                                    impl_h6 |-> ImplDims6(p[1], p[2]).h, impl_w6 |-> ImplDims6(p[1], p[2]).w] : p \in OptPairs})]
EmitOpts == (pc = "idle" /\ Emit /\ Shard = 0) => PrintT(<<"@@REC", ToJson(OptsRecord)>>)
\* C12: the first j levels of a J-level pyramid are the j-level pyramid
PrefixOK == (pc = "done" /\ call.api = "fwd") =>
               \A j \in 1 .. call.J : SubSeq(trail, 1, j) = RefTrail(call.H, call.W, 1, j)
=============================================================================
