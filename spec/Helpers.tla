------------------------------ MODULE Helpers ------------------------------
(***************************************************************************)
(* The small public helpers every transform family leans on, as total      *)
(* functions over their whole argument space (including the out-of-range   *)
(* arguments the transforms never pass, where a later caller would first   *)
(* notice a change):                                                       *)
(*   dwt.lowlevel.mypad            (six modes, one or both axes)           *)
(*   dwt.lowlevel.roll             (negative shifts, make_even)            *)
(*   dwt.lowlevel.mode_to_int / int_to_mode                                *)
(*   utils.symm_pad_1d / reflect                                           *)
(*   dwt.lowlevel.prep_filt_*  and dtcwt.lowlevel.prep_filt                *)
(*     (which taps are time-reversed, which axis they lie along)           *)
(* The index maps are the ones the Impl layers of DWT1 / SWT / Nonsep /    *)
(* DTCWT1 are built from (module Idx); this module states what they ARE    *)
(* and MC_Helpers proves them equal to the declarative extension maps and  *)
(* prints them for replay into the real functions.                         *)
(***************************************************************************)
EXTENDS Idx, FiniteSets

PadModes == {"symmetric", "periodic", "reflect", "replicate", "zero", "constant"}

\* mypad raises for exactly these arguments (torch refuses a reflect pad >= the axis length)
PadRaises(mode, n, a, b) == mode = "reflect" /\ ~TorchReflectOk(n, a, b)

\* index vector along one axis, -1 = the pad value (0 unless `value` is given with 'constant')
PadIdx(mode, n, a, b) ==
    [p \in 0 .. (n + a + b - 1) |->
        LET t == p - a IN
        CASE mode = "symmetric" -> NpReflectHalf(t, n)
          [] mode = "periodic"  -> PMod(t, n)
          [] mode = "reflect"   -> IF t < 0 THEN -t ELSE IF t >= n THEN 2 * n - 2 - t ELSE t
          [] mode = "replicate" -> IF t < 0 THEN 0 ELSE IF t >= n THEN n - 1 ELSE t
          [] OTHER              -> IF t < 0 \/ t >= n THEN -1 ELSE t]

\* the pywt extension each pad mode realises (where pywt has one)
PywtOf(mode) == CASE mode = "symmetric" -> "symmetric" [] mode = "periodic" -> "periodic"
                  [] mode = "reflect" -> "reflect" [] OTHER -> "zero"
PadMatchesPywt(mode, n, a, b) ==
    (mode # "replicate" /\ ~PadRaises(mode, n, a, b)) =>
        \A p \in 0 .. (n + a + b - 1) : PadIdx(mode, n, a, b)[p] = SrcExt(PywtOf(mode), n, p - a)
\* the transcriptions used inside the Impl layers are these maps
PadMatchesIdx(mode, n, a, b) ==
    /\ mode = "periodic" => PadIdx(mode, n, a, b) = NpWrapPad(n, a, b)
    /\ (mode = "reflect" /\ TorchReflectOk(n, a, b)) => PadIdx(mode, n, a, b) = TorchReflectPad(n, a, b)
    /\ (mode = "symmetric" /\ a = b) => PadIdx(mode, n, a, b) = SymmPad(n, a)
\* every real source index is inside the axis
PadInRange(mode, n, a, b) ==
    \A p \in 0 .. (n + a + b - 1) : LET s == PadIdx(mode, n, a, b)[p] IN s >= -1 /\ s < n
\* the unpadded part is the identity
PadKeepsInterior(mode, n, a, b) == \A t \in 0 .. (n - 1) : PadIdx(mode, n, a, b)[t + a] = t

(* ------------------------------- roll --------------------------------- *)
\* roll(x, n, dim, make_even): cat(x[-n:], x[:-n+end]) with end = 1 for make_even on an odd axis
RollEnd(len, even) == IF even /\ len % 2 = 1 THEN 1 ELSE 0
RollIdxE(len, n0, even) ==
    LET n  == IF n0 < 0 THEN len + n0 ELSE n0
        e  == RollEnd(len, even)
        a0 == PyStart(len, -n)                       \* x[-n:]   (-0 is 0: the whole axis)
        b1 == PyStop(len, -n + e)                    \* x[:-n+end]
        la == len - a0
    IN  [p \in 0 .. (la + b1 - 1) |-> IF p < la THEN a0 + p ELSE p - la]
\* inside 0 < n < len it is the cyclic shift (plus one repeated sample for make_even)
RollCyclic(len, n0, even) ==
    LET n == IF n0 < 0 THEN len + n0 ELSE n0
        r == RollIdxE(len, n0, even)
        \* named deviation: with make_even on an odd axis and n = 1 the second slice is x[:0] = empty,
        \* so the result has ONE sample; no caller in the library passes make_even (recorded, not claimed)
    IN  (0 < n /\ n < len /\ ~(RollEnd(len, even) = 1 /\ n = 1)) =>
           /\ Cardinality(DOMAIN r) = len + RollEnd(len, even)
           /\ \A p \in 0 .. (len - 1) : r[p] = PMod(p - n, len)
           /\ RollEnd(len, even) = 1 => r[len] = PMod(len - n, len)
RollDegenerate(len, n0, even) ==
    LET n == IF n0 < 0 THEN len + n0 ELSE n0
    IN  (RollEnd(len, even) = 1 /\ n = 1) => Cardinality(DOMAIN RollIdxE(len, n0, even)) = 1
RollSameAsIdx(len, n0) == RollIdxE(len, n0, FALSE) = RollIdx(len, n0)

(* --------------------------- mode <-> int ------------------------------ *)
ModeNames == {"zero", "symmetric", "per", "periodization", "constant", "reflect", "replicate", "periodic"}
ModeToInt(m) == CASE m = "zero" -> 0 [] m = "symmetric" -> 1 [] m \in {"per", "periodization"} -> 2
                  [] m = "constant" -> 3 [] m = "reflect" -> 4 [] m = "replicate" -> 5 [] m = "periodic" -> 6
IntToMode(i) == CASE i = 0 -> "zero" [] i = 1 -> "symmetric" [] i = 2 -> "periodization" [] i = 3 -> "constant"
                  [] i = 4 -> "reflect" [] i = 5 -> "replicate" [] i = 6 -> "periodic"
Canon(m) == IF m = "per" THEN "periodization" ELSE m
ModeRoundTrip == /\ \A m \in ModeNames : IntToMode(ModeToInt(m)) = Canon(m)
                 /\ \A i \in 0 .. 6 : ModeToInt(IntToMode(i)) = i
                 /\ Cardinality({ModeToInt(m) : m \in ModeNames}) = 7

(* ----------------------------- prep_filt ------------------------------- *)
\* what each preparation routine does to a tap vector h = <<h[0..L-1]>> given as positions:
\* flip = stored[k] = h[L-1-k]; axis = which tensor axis carries the taps (2 = rows/vertical, 3 = horizontal)
PrepKinds == {"afb1d", "sfb1d", "afb2d.col", "afb2d.row", "sfb2d.col", "sfb2d.row", "dtcwt", "dtcwt.T"}
PrepFlip(k) == k \in {"afb1d", "afb2d.col", "afb2d.row", "dtcwt", "dtcwt.T"}
PrepAxis(k) == CASE k \in {"afb1d", "sfb1d"} -> 2          \* (1,1,L)
                 [] k \in {"afb2d.col", "sfb2d.col", "dtcwt"} -> 2  \* (1,1,L,1) / (c,1,L,1)
                 [] OTHER -> 3
PrepRank(k) == IF k \in {"afb1d", "sfb1d"} THEN 3 ELSE 4
\* stored position k holds original tap PrepTap(kind, L, k)
PrepTap(kind, L, k) == IF PrepFlip(kind) THEN L - 1 - k ELSE k
\* analysis routines correlate (conv2d) so they store reversed taps, synthesis routines use
\* conv_transpose2d (true convolution) and store them as given: the pairing is what makes
\* Corr/Conv in module Op the right reading of the two filter banks
PrepContract == \A k \in PrepKinds : PrepFlip(k) <=> (k \notin {"sfb1d", "sfb2d.col", "sfb2d.row"})

\* non-separable point spread functions: filts[band][i][j] = col_band[ri] * row_band[rj]
\* band order ll, lh, hl, hh with lh = (h1_col, h0_row): "l/h" names the ROW filter second
NonsepBandCol(b) == IF b \in {1, 3} THEN 1 ELSE 0      \* which column filter (0 = low, 1 = high)
NonsepBandRow(b) == IF b \in {2, 3} THEN 1 ELSE 0
NonsepIdx(analysis, L, i) == IF analysis THEN L - 1 - i ELSE i
=============================================================================
